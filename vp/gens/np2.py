"""NP2 conversion sessions: <root>/probe00/<stem>.ap.bin + meta, helpers to run the converter and read its output."""
from pathlib import Path

import numpy as np

from . import meta as gm, recording as rec

STEM = "_spikeglx_ephysData_g0_t0.imec0.ap"
# run names are the experimenter's choice; SpikeGLX appends _g<gate>_t<trigger>.imec<probe>.<band>. Some of these contain the
# band tags as ordinary letters ("mapping", "apical_lfp").
# a registered dataset carries its UUID between the band tag and the extension (spikeglx._get_companion_file supports that form)
STEM_UUID = "run_g0_t0.imec0.ap.e510da60-025e-4f6b-bb6f-a0d3e0b3b2d5"
STEMS = [STEM, STEM, STEM, "mapping_g0_t0.imec0.ap", "apical_lfp_g2_t1.imec1.ap", "snap_g0_t3.imec0.ap", "KS091_g0_t0.imec2.ap",
         STEM_UUID]


def has_uuid(stem):
    return bool(stem) and stem.count("-") >= 4


def make_session(root, spec, D, cbin=False, chunk=3000, label="probe00", stem=None):
    """Writes the recording under root/label. Returns the path handed to the converter."""
    folder = Path(root) / label
    binf = rec.write_recording(folder, spec, D, stem=stem or STEM)
    if cbin:
        return rec.compress(binf, gm.n_channels(spec), spec["fs"], chunk, keep_bin=False)
    return binf


def shank_of_channels(spec):
    return np.array([s[0] for s in gm.sites_of(spec)])


def shank_folders(root, label="probe00", extra=""):
    root = Path(root)
    return sorted(p for p in root.glob(f"{label}?{extra}") if p.is_dir() and p.name != label)


def read_raw(path, nc):
    """int16 content of a .bin or .cbin (decompressed by the harness with mtscomp directly)."""
    path = Path(path)
    if path.suffix == ".cbin":
        import mtscomp
        r = mtscomp.Reader(n_threads=1)
        r.open(path, path.with_suffix(".ch"))
        try:
            return np.ascontiguousarray(r[:])
        finally:
            r.close()
    a = np.fromfile(path, dtype=np.int16)
    return a.reshape(-1, nc) if a.size % nc == 0 else a


def find_data(folder, kind="ap"):
    """The .bin or .cbin file of the given kind in a shank folder (None if absent)."""
    for suf in (".bin", ".cbin"):
        c = sorted(Path(folder).glob(f"*.{kind}{suf}")) + sorted(Path(folder).glob(f"*.{kind}.*{suf}"))
        if c:
            return c[0]
    return None
