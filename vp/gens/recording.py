"""Writes synthetic SpikeGLX recordings (bin / meta / cbin+ch) into a scratch directory."""
import contextlib
import shutil
import tempfile
from pathlib import Path

import numpy as np

from . import meta as gm


@contextlib.contextmanager
def scratch_dir(ctx, prefix="case_"):
    root = ctx.scratch if ctx is not None and ctx.scratch is not None else None
    d = Path(tempfile.mkdtemp(prefix=prefix, dir=root))
    try:
        yield d
    finally:
        shutil.rmtree(d, ignore_errors=True)


def make_data(ns, nc, seed, mode="full", nsync=1):
    """int16 content. mode: 'full' uniform over the whole int16 range incl. both extremes; 'small' within +-200;
    'ramp' value depends on (sample, channel) so that any misplacement is visible; 'smooth' coloured noise."""
    rng = np.random.default_rng(seed)
    if mode == "full":
        d = rng.integers(-32768, 32768, size=(ns, nc), dtype=np.int64).astype(np.int16)
        # force the extremes somewhere
        flat = d.reshape(-1)
        if flat.size >= 4:
            pos = rng.choice(flat.size, size=4, replace=False)
            flat[pos] = [-32768, 32767, 0, -1]
    elif mode == "small":
        d = rng.integers(-200, 201, size=(ns, nc)).astype(np.int16)
    elif mode == "ramp":
        d = ((np.arange(ns)[:, None] * 31 + np.arange(nc)[None, :] * 257 + int(rng.integers(0, 1000))) % 65536 - 32768).astype(np.int16)
    elif mode == "smooth":
        x = np.cumsum(rng.standard_normal((ns, nc)) * 20, axis=0) + rng.standard_normal((ns, nc)) * 15
        x -= x.mean(axis=0)
        d = np.clip(np.round(x), -30000, 30000).astype(np.int16)
    elif mode == "broadband":
        # white + coloured noise + slow drifts, never constant; uses a good part of the int16 range without clipping
        t = np.arange(ns)[:, None]
        white = rng.standard_normal((ns, nc)) * rng.uniform(20, 400, size=(1, nc))
        col = np.cumsum(rng.standard_normal((ns, nc)), axis=0) * rng.uniform(2, 30, size=(1, nc))
        col -= col.mean(axis=0)
        drift = rng.uniform(100, 3000, size=(1, nc)) * np.sin(2 * np.pi * t * rng.uniform(1e-5, 2e-3, size=(1, nc)) + rng.uniform(0, 6, size=(1, nc)))
        common = rng.standard_normal((ns, 1)) * 150
        d = np.clip(np.round(white + col + drift + common), -32000, 32000).astype(np.int16)
    else:
        raise ValueError(mode)
    if nsync:
        d[:, nc - nsync:] = rng.integers(0, 65536, size=(ns, nsync)).astype(np.uint16).view(np.int16).reshape(ns, nsync)
    return np.ascontiguousarray(d)


def write_recording(folder, spec, data, stem=None, meta_text=None):
    """Writes <stem>.bin and <stem>.meta; returns the Path of the bin file."""
    folder = Path(folder)
    folder.mkdir(parents=True, exist_ok=True)
    if stem is None:
        stream = "nidq" if spec["gen"] == "nidq" else f"imec0.{spec.get('stream', 'ap')}"
        stem = f"run_g0_t0.{stream}"
    bin_file = folder / f"{stem}.bin"
    with open(bin_file, "wb") as f:
        np.ascontiguousarray(data).tofile(f)
    (folder / f"{stem}.meta").write_text(meta_text if meta_text is not None else gm.build_text(spec))
    return bin_file


def compress(bin_file, nc, fs, chunk_samples, n_threads=1, keep_bin=True, dtype=np.int16):
    """Harness-side compression with mtscomp directly (chunk of `chunk_samples` samples). Returns cbin path."""
    import mtscomp
    bin_file = Path(bin_file)
    cbin = bin_file.with_suffix(".cbin")
    ch = bin_file.with_suffix(".ch")
    mtscomp.compress(bin_file, out=cbin, outmeta=ch, sample_rate=fs, n_channels=nc, dtype=dtype,
                     chunk_duration=chunk_samples / fs, n_threads=n_threads, check_after_compress=False)
    if not keep_bin:
        bin_file.unlink()
    return cbin
