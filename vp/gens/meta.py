"""SpikeGLX metadata grammar: builds metadata *text* from a small JSON 'spec' (never copies fixtures).

spec keys
  gen        '3A' | '3B1' | '3B2' | 'NP2.1' | 'NP2.4' | 'NPultra' | 'nidq'
  prb_type   imDatPrb_type written (0, 21, 1030, 24, 2013, 1100); ignored for 3A / nidq
  stream     'ap' | 'lf'
  n          number of saved AP (or LF) channels, 1..384
  n_acq      number of acquired channels (imro entries), >= n          (prefix subset when n < n_acq)
  first_chan original channel number of the first saved channel (default 0). > 0 gives a NON-prefix subset
             first_chan .. first_chan+n-1 (snsSaveChanSubset says so; maps list the saved channels, imro all acquired)
  pattern    site selection pattern: 'dense' | 'random' | 'banks' | 'reversed' | 'interleaved'
  site_seed  integer seed of the selection
  shanks     list of shanks in use (NP2.4), e.g. [0, 2]
  enc        'shank' | 'geom'    (snsShankMap or snsGeomMap)
  tilde      bool                (~ prefix on the table keys)
  gains_seed / gain_mode         NP1 per-channel gains: 'uniform' | 'random'
  imro_fields 5 | 6
  range, maxint                  imAiRangeMax / imMaxInt (maxint None => key omitted, NP1 only)
  fs         sampling rate
  nsync      0 | 1
  ns         number of samples announced (fileTimeSecs = ns / fs, fileSizeBytes = ns * nc * 2)
  acquiring  True => the three end-of-run keys (fileSHA1, fileSizeBytes, fileTimeSecs) are absent (run in progress)
  nidq: mn, ma, xa, dw, mn_gain, ma_gain, range
"""
import numpy as np

NP1_GAINS = [50, 125, 250, 500, 1000, 1500, 2000, 3000]
RANGE_MAXINT_NP1 = [(0.6, 512), (0.6, None)]
RANGE_MAXINT_NP2 = [(0.5, 8192), (0.62, 2048), (0.62, 8192), (0.6, 512)]
PRB_TYPES = {"3B1": [0], "3B2": [0], "NP2.1": [21, 1030], "NP2.4": [24, 2013], "NPultra": [1100]}


def grid(gen):
    """All (shank, col, row) sites of the probe generation in ShankMap convention."""
    if gen in ("3A", "3B1", "3B2"):
        return [(0, c, r) for r in range(480) for c in range(2)]
    if gen == "NP2.1":
        return [(0, c, r) for r in range(640) for c in range(2)]
    if gen == "NP2.4":
        return [(s, c, r) for s in range(4) for r in range(640) for c in range(2)]
    if gen == "NPultra":
        return [(0, c, r) for r in range(48) for c in range(8)]
    raise ValueError(gen)


def dense_sites(gen, nshank=None):
    """Canonical dense layouts, on-disk order."""
    if gen in ("3A", "3B1", "3B2", "NP2.1"):
        return [(0, i % 2, i // 2) for i in range(384)]
    if gen == "NPultra":
        return [(0, i % 8, i // 8) for i in range(384)]
    if gen == "NP2.4":
        if nshank == 1:
            return [(0, i % 2, i // 2) for i in range(384)]
        # SpikeGLX 4-shank bottom-row default: blocks of 48 channels alternate between shank pairs
        out = []
        shank_of_block = [0, 1, 0, 1, 2, 3, 2, 3]
        row_off = [0, 0, 24, 24, 0, 0, 24, 24]
        for i in range(384):
            b, k = divmod(i, 48)
            out.append((shank_of_block[b], k % 2, k // 2 + row_off[b]))
        return out
    raise ValueError(gen)


def sites_of(spec):
    """Deterministic site list (shank, col, row) per saved channel, in on-disk order."""
    gen, n = spec["gen"], spec["n"]
    pattern = spec.get("pattern", "dense")
    rng = np.random.default_rng(spec.get("site_seed", 0))
    shanks = spec.get("shanks") or [0]
    if pattern == "dense":
        s = dense_sites(gen, nshank=4 if (gen == "NP2.4" and len(shanks) > 1) else 1)
        return s[:n]
    g = grid(gen)
    if gen == "NP2.4":
        g = [x for x in g if x[0] in shanks]
    g = np.array(g)
    if pattern == "random":
        idx = rng.permutation(len(g))[:n]
    elif pattern == "reversed":
        start = int(rng.integers(0, len(g) - n + 1))
        idx = np.arange(start, start + n)[::-1]
    elif pattern == "banks":
        # contiguous blocks of sites taken from random places (like bank selections), blocks in random order
        nb = int(rng.integers(1, 9))
        cuts = np.sort(rng.choice(np.arange(1, n), size=min(nb - 1, max(n - 1, 0)), replace=False)) if n > 1 else []
        sizes = np.diff(np.r_[0, cuts, n]).astype(int)
        avail = np.ones(len(g), bool)
        blocks = []
        for sz in sizes:
            for _ in range(200):
                st0 = int(rng.integers(0, len(g) - sz + 1))
                if avail[st0:st0 + sz].all():
                    avail[st0:st0 + sz] = False
                    blocks.append(np.arange(st0, st0 + sz))
                    break
            else:
                free = np.flatnonzero(avail)[:sz]
                avail[free] = False
                blocks.append(free)
        idx = np.concatenate(blocks)[:n]
    elif pattern == "interleaved":
        # channels alternate between the shanks in use, rows ascending inside each shank
        per = {s: [i for i in range(len(g)) if g[i][0] == s] for s in shanks}
        offs = {s: int(rng.integers(0, max(1, len(per[s]) - n))) for s in shanks}
        idx, k = [], 0
        cnt = {s: 0 for s in shanks}
        while len(idx) < n:
            s = shanks[k % len(shanks)]
            idx.append(per[s][offs[s] + cnt[s]])
            cnt[s] += 1
            k += 1
        idx = np.array(idx)
    else:
        raise ValueError(pattern)
    if len(set(idx.tolist())) != len(idx):  # construction must give distinct sites
        raise AssertionError("site generator produced duplicates")
    return [tuple(int(v) for v in g[i]) for i in idx]


def gains_of(spec):
    """NP1 per acquired channel (ap_gain, lf_gain)."""
    n_acq = spec.get("n_acq", spec["n"])
    if spec.get("gain_mode", "uniform") == "uniform":
        return [(500, 250)] * n_acq
    rng = np.random.default_rng(spec.get("gains_seed", 0))
    a = rng.choice(NP1_GAINS, size=n_acq)
    b = rng.choice(NP1_GAINS, size=n_acq)
    # make sure ap != lf for at least most channels so that a column swap is visible
    same = a == b
    b[same] = [NP1_GAINS[(NP1_GAINS.index(int(v)) + 3) % len(NP1_GAINS)] for v in b[same]]
    return [(int(x), int(y)) for x, y in zip(a, b)]


def is_np1(gen):
    return gen in ("3A", "3B1", "3B2")


def geom_xy(gen, shank, col, row):
    """(x, y) as SpikeGLX writes them in snsGeomMap (shank-relative x, y from the first row)."""
    if is_np1(gen):
        x = {(0, 0): 27, (1, 0): 59, (0, 1): 11, (1, 1): 43}[(col, row % 2)]
        return x, 20 * row
    if gen in ("NP2.1", "NP2.4"):
        return 27 + 32 * col, 15 * row
    raise ValueError("no snsGeomMap generated for " + gen)


def _fmt_float(v):
    """Positional decimal notation (SpikeGLX never writes exponents), shortest string that round-trips."""
    return np.format_float_positional(float(v), unique=True, trim="-")


def build_lines(spec):
    """Returns the list of 'key=value' lines of the metadata file."""
    gen = spec["gen"]
    if gen == "nidq":
        return _build_nidq(spec)
    n, nsync = spec["n"], spec.get("nsync", 1)
    n_acq = spec.get("n_acq", n)
    stream = spec.get("stream", "ap")
    nc = n + nsync
    ns, fs = spec["ns"], spec["fs"]
    t = "~" if spec.get("tilde", True) else ""
    sites = sites_of(spec)
    np2 = gen in ("NP2.1", "NP2.4")
    L = []
    acq = f"{n_acq},0,1" if np2 else f"{n_acq},{n_acq},1"
    L.append(f"acqApLfSy={acq}")
    L.append("appVersion=20201103")
    L.append("fileCreateTime=2021-08-02T14:30:26")
    L.append(f"fileName=D:/data/run_g0/run_g0_imec0/run_g0_t0.imec0.{stream}.bin")
    if not spec.get("acquiring"):  # SpikeGLX writes these three only when the run ends
        L.append("fileSHA1=C040C224559DD5FAB71AC1A1542049BA9D68A77E")
        L.append(f"fileSizeBytes={ns * nc * 2}")
        L.append(f"fileTimeSecs={_fmt_float(ns / fs)}")
    L.append("firstSample=110884048")
    L.append("gateMode=Immediate")
    L.append(f"imAiRangeMax={_fmt_float(spec['range'])}")
    L.append(f"imAiRangeMin=-{_fmt_float(spec['range'])}")
    L.append("imCalibrated=true")
    if gen == "3A":
        L.append("imProbeOpt=3")
        L.append("imProbeSN=641251510")
    else:
        L.append("imDatApi=3.31")
        L.append("imDatBs_fw=2.0.137")
        L.append("imDatHs_pn=NPM_HS_01")
        if gen != "3B1":
            L.append("imDatPrb_port=1")
            L.append("imDatPrb_slot=2")
        L.append("imDatPrb_sn=19011110513")
        L.append(f"imDatPrb_type={spec['prb_type']}")
    if spec.get("maxint") is not None:
        L.append(f"imMaxInt={spec['maxint']}")
    L.append("imRoFile=")
    L.append(f"imSampRate={_fmt_float(fs)}")
    L.append("imStdby=")
    L.append("imTrgRising=true")
    L.append(f"nSavedChans={nc}")
    if stream == "ap":
        L.append(f"snsApLfSy={n},0,{nsync}")
    else:
        L.append(f"snsApLfSy=0,{n},{nsync}")
    k0 = spec.get("first_chan", 0)
    rng_txt = f"{k0}:{k0 + n - 1}" if n > 1 else f"{k0}"
    if nsync and np2 and n == n_acq:
        sub = f"0:{n}"  # what SpikeGLX writes when every channel of an NP2 probe is saved (sync is channel n_acq)
    elif nsync:
        sub = f"{rng_txt},{2 * n_acq if not np2 else n_acq}"
    else:
        sub = rng_txt
    L.append(f"snsSaveChanSubset={sub}")
    L.append("syncImInputSlot=2")
    L.append("trigMode=Immediate")
    if gen == "3A":
        L.append("typeEnabled=imec")
    else:
        L.append("typeImEnabled=1")
        L.append("typeNiEnabled=1")
    L.append("typeThis=imec")
    L.append("userNotes=")
    # --- tables
    if np2:
        if gen == "NP2.4":
            ent = "".join(f"({i} {s} 0 0 {r * 2 + c})" for i, (s, c, r) in enumerate(_pad_sites(sites, n_acq, gen, spec.get('first_chan', 0))))
        else:
            ent = "".join(f"({i} 1 0 {r * 2 + c})" for i, (s, c, r) in enumerate(_pad_sites(sites, n_acq, gen, spec.get('first_chan', 0))))
        L.append(f"{t}imroTbl=({spec['prb_type']},{n_acq}){ent}")
    else:
        g = gains_of(spec)
        nf = spec.get("imro_fields", 6 if gen != "3A" else 5)
        tail = " 1" if nf == 6 else ""
        ent = "".join(f"({i} 0 0 {a} {b}{tail})" for i, (a, b) in enumerate(g))
        head = f"(641251510,3,{n_acq})" if gen == "3A" else f"({spec.get('prb_type', 0)},{n_acq})"
        L.append(f"{t}imroTbl={head}{ent}")
    cm = "".join(f"(AP{k0 + i};{k0 + i}:{i})" for i in range(n)) + (f"(SY0;{2 * n_acq}:{n})" if nsync else "")
    L.append(f"{t}snsChanMap=({n_acq},{0 if np2 else n_acq},1){cm}")
    if spec.get("enc", "shank") == "shank":
        hdr = {"3A": "(1,2,480)", "3B1": "(1,2,480)", "3B2": "(1,2,480)", "NP2.1": "(1,2,640)",
               "NP2.4": "(4,2,640)", "NPultra": "(1,8,48)"}[gen]
        ent = "".join(f"({s}:{c}:{r}:1)" for (s, c, r) in sites)
        L.append(f"{t}snsShankMap={hdr}{ent}")
    else:
        hdr = "(NP2014,4,250,70)" if gen == "NP2.4" else ("(NP2000,1,0,70)" if gen == "NP2.1" else "(PRB_1_4_0480_1_C,1,0,70)")
        ent = "".join("({}:{}:{}:1)".format(s, *geom_xy(gen, s, c, r)) for (s, c, r) in sites)
        L.append(f"{t}snsGeomMap={hdr}{ent}")
    for k, v in (spec.get("extra") or {}).items():
        L.append(f"{k}={v}")
    return L


def _pad_sites(sites, n_acq, gen, k0=0):
    if len(sites) >= n_acq:
        return sites[:n_acq]
    used = set(sites)
    extra = [x for x in grid(gen) if x not in used][: n_acq - len(sites)]
    return extra[:k0] + list(sites) + extra[k0:]


def _build_nidq(spec):
    mn, ma, xa, dw = spec["mn"], spec["ma"], spec["xa"], spec["dw"]
    nc = mn + ma + xa + dw
    ns, fs = spec["ns"], spec["fs"]
    t = "~" if spec.get("tilde", True) else ""
    L = [f"acqMnMaXaDw={mn},{ma},{xa},{dw}", "appVersion=20190327", "fileCreateTime=2019-08-15T17:37:20",
         "fileName=D:/data/run_g0/run_g0_t0.nidq.bin", "fileSHA1=62B0989A934AE4A9C8FA9254CE828BEAFCE31364",
         f"fileSizeBytes={ns * nc * 2}", f"fileTimeSecs={_fmt_float(ns / fs)}", "firstSample=1738164",
         "gateMode=Immediate", f"nSavedChans={nc}", f"niAiRangeMax={_fmt_float(spec['range'])}",
         f"niAiRangeMin=-{_fmt_float(spec['range'])}", "niAiTermination=Default", "niClockLine1=Internal",
         "niDev1=PXI1Slot2", "niDev1ProductName=PXIe-6341", "niMAChans1=", f"niMAGain={_fmt_float(spec['ma_gain'])}",
         "niMNChans1=", f"niMNGain={_fmt_float(spec['mn_gain'])}", "niMuxFactor=1", f"niSampRate={_fmt_float(fs)}",
         "niStartEnable=false", "niXAChans1=0", "niXDBytes1=1", "niXDChans1=0:7",
         f"snsMnMaXaDw={mn},{ma},{xa},{dw}", "snsSaveChanSubset=all", "syncNiChan=3", "syncNiChanType=0",
         "syncNiThresh=1.1", "trigMode=Immediate", "typeImEnabled=2", "typeNiEnabled=1", "typeThis=nidq", "userNotes="]
    if spec.get("maxint") is not None:
        L.append(f"imMaxInt={spec['maxint']}")
    L.append(f"{t}snsChanMap=({mn},{ma},1,{xa},{dw})" + "".join(f"(XA{i};{i}:{i})" for i in range(xa)))
    if spec.get("shankmap_key", True):
        L.append(f"{t}snsShankMap=(1,2,0)")
    return L


def build_text(spec):
    return "\n".join(build_lines(spec)) + "\n"


def n_channels(spec):
    if spec["gen"] == "nidq":
        return spec["mn"] + spec["ma"] + spec["xa"] + spec["dw"]
    return spec["n"] + spec.get("nsync", 1)


# ---------------------------------------------------------------------------------------------------
# Hypothesis strategies

def st_spec(gens=("3A", "3B1", "3B2", "NP2.1", "NP2.4", "NPultra"), n_range=(1, 384), allow_lf=True,
            allow_nosync=False, patterns=("dense", "random", "banks", "reversed", "interleaved"),
            encs=("shank", "geom"), ns_range=(1, 400), uniform_gain_ok=True, n_choices=None, allow_offset=False):
    from hypothesis import strategies as st

    @st.composite
    def _spec(draw):
        gen = draw(st.sampled_from(list(gens)))
        spec = {"gen": gen}
        if gen != "3A":
            spec["prb_type"] = draw(st.sampled_from(PRB_TYPES[gen]))
        np2 = gen in ("NP2.1", "NP2.4")
        spec["stream"] = draw(st.sampled_from(["ap", "ap", "lf"])) if (allow_lf and not np2) else "ap"
        if n_choices is not None:
            n = draw(st.sampled_from(list(n_choices)))
        else:
            n = draw(st.one_of(st.just(384), st.integers(n_range[0], n_range[1]), st.integers(n_range[0], min(n_range[1], 40))))
            n = max(n_range[0], min(n, n_range[1]))
        spec["n"] = n
        acq_opts = [384] if n > 276 else [384, 276] if gen == "3A" else [384]
        spec["n_acq"] = draw(st.sampled_from(acq_opts + ([n] if n not in acq_opts else [])))
        if allow_offset and spec["n_acq"] > n and draw(st.integers(0, 3)) == 0:
            spec["first_chan"] = draw(st.integers(1, spec["n_acq"] - n))
        pats = list(patterns)
        if gen == "NP2.4":
            k = draw(st.integers(1, 4))
            spec["shanks"] = sorted(draw(st.permutations([0, 1, 2, 3]))[:k])
        else:
            pats = [p for p in pats if p != "interleaved"] or ["dense"]
        if gen == "NPultra":
            pats = [p for p in pats if p in ("dense", "random", "reversed")] or ["dense"]
        spec["pattern"] = draw(st.sampled_from(pats))
        if spec["pattern"] == "dense" and gen == "NP2.4":
            spec["shanks"] = draw(st.sampled_from([[0], [0, 1, 2, 3]]))
        spec["site_seed"] = draw(st.integers(0, 2 ** 32 - 1))
        spec["enc"] = "shank" if gen == "NPultra" else draw(st.sampled_from(list(encs)))
        spec["tilde"] = draw(st.booleans())
        if np2:
            spec["range"], spec["maxint"] = draw(st.sampled_from(RANGE_MAXINT_NP2))
        else:
            spec["range"], spec["maxint"] = draw(st.sampled_from(RANGE_MAXINT_NP1))
            spec["gain_mode"] = draw(st.sampled_from(["random", "random", "uniform"] if uniform_gain_ok else ["random"]))
            spec["gains_seed"] = draw(st.integers(0, 2 ** 32 - 1))
            spec["imro_fields"] = 5 if gen == "3A" else 6
        fs_ap = draw(st.sampled_from([30000.0, 29999.757983, 30000.390639481, 30003.0003]))
        spec["fs"] = fs_ap if spec["stream"] == "ap" else draw(st.sampled_from([2500.0, 2500.032553290, 2499.98]))
        spec["nsync"] = draw(st.sampled_from([1, 1, 1, 0])) if allow_nosync else 1
        spec["ns"] = draw(st.integers(*ns_range))
        return spec
    return _spec()


def st_nidq(ns_range=(1, 400)):
    from hypothesis import strategies as st

    @st.composite
    def _spec(draw):
        spec = {"gen": "nidq"}
        spec["mn"] = draw(st.sampled_from([0, 0, 1, 2]))
        spec["ma"] = draw(st.sampled_from([0, 0, 1, 3]))
        spec["xa"] = draw(st.integers(0, 4))
        spec["dw"] = draw(st.sampled_from([1, 1, 0])) if (spec["mn"] + spec["ma"] + spec["xa"]) > 0 else 1
        spec["mn_gain"] = draw(st.sampled_from([200.0, 1.0, 50.0]))
        spec["ma_gain"] = draw(st.sampled_from([1.0, 10.0]))
        spec["range"] = draw(st.sampled_from([5.0, 10.0, 2.5]))
        spec["maxint"] = None
        spec["fs"] = draw(st.sampled_from([30003.0003, 25000.0, 30000.0]))
        spec["tilde"] = draw(st.booleans())
        spec["shankmap_key"] = draw(st.booleans())
        spec["ns"] = draw(st.integers(*ns_range))
        return spec
    return _spec()
