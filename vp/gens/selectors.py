"""Index selector strategies, JSON-encoded: {"t": "int"|"slice"|"list"|"array", "v": ...}."""
import numpy as np
from hypothesis import strategies as st


def decode(sel):
    t, v = sel["t"], sel["v"]
    if t == "int":
        return int(v)
    if t == "npint":  # numpy integer scalar (what iterating over an index array yields)
        return np.int64(v)
    if t == "npint32":
        return np.int32(v)
    if t == "slice":
        return slice(*v)
    if t == "list":
        return list(v)
    if t == "array":
        return np.array(v, dtype=int)
    raise ValueError(t)


def is_listlike(sel):
    return sel["t"] in ("list", "array")


def _bound(n):
    """start/stop values: None, inside, negative, out of range on both sides."""
    return st.one_of(st.none(), st.integers(0, max(n - 1, 0)), st.integers(-n, -1) if n > 0 else st.none(),
                     st.sampled_from([n, n + 1, n + 7, -n - 1, -n - 5, 0, -1]))


def st_slice(n, neg_step=True):
    steps = [None, 1, 1, 2, 3, 7, n + 3] + ([-1, -1, -2, -5] if neg_step else [])
    return st.builds(lambda a, b, s: {"t": "slice", "v": [a, b, s]}, _bound(n), _bound(n), st.sampled_from(steps))


def st_int(n):
    """Python and NumPy integer scalars, mostly inside [-n, n), sometimes just outside (NumPy raises IndexError there)."""
    inside = st.integers(-n, n - 1) if n > 0 else st.just(0)
    outside = st.sampled_from([n, n + 1, n + 9, -n - 1, -n - 2, -2 * n - 1, -n - 17])
    val = st.one_of(inside, inside, inside, inside, st.sampled_from([0, -1, max(n - 1, 0), -n]), outside)
    return st.builds(lambda v, t: {"t": t, "v": v}, val, st.sampled_from(["int", "int", "int", "npint", "npint32"]))


def st_list(n, max_size=12):
    el = st.integers(-n, n - 1)
    lst = st.lists(el, min_size=0, max_size=max_size)
    return st.builds(lambda v, arr: {"t": "array" if arr else "list", "v": v}, lst, st.booleans())


def st_sample_sel(ns, allow_list=True, neg_step=True):
    opts = [st_slice(ns, neg_step=neg_step), st_slice(ns, neg_step=neg_step), st_int(ns)]
    if allow_list:
        opts.append(st_list(ns))
    return st.one_of(*opts)


def st_channel_sel(nc):
    return st.one_of(st_slice(nc), st_int(nc), st_list(nc), st.just({"t": "slice", "v": [None, None, None]}))


def slice_nontrivial(sel):
    if sel["t"] != "slice":
        return False
    a, b, s = sel["v"]
    return (s is not None and abs(s) > 1) or (a is not None and a < 0) or (b is not None and b < 0)
