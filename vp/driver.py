"""Driver: seeds, sharding over processes, budgets, multi-root-cause search, evidence, exit codes.

usage: python -m vp.driver <ID> [--tier quick|thorough] [--replay FILE] [--cases N] [--shards N]

exit 0  property held on everything explored (KNOWN-FINDING lines possible)
exit 1  at least one finding not listed in KNOWN_FINDINGS.txt; `VIOLATION property=<ID> replay=<path>` printed
exit 2  harness error (generator / oracle / environment) - never reported as a violation
"""
import argparse
import collections
import concurrent.futures as cf
import importlib
import json
import logging
import multiprocessing as mp
import os
import re
import shutil
import signal
import subprocess
import sys
import tempfile
import time
import traceback
import warnings
from pathlib import Path

from .core import Ctx, HarnessAbort, VERIF, case_hash, load_known, eprint

MAX_KINDS_PER_SHARD = 6
N_SAMPLES = 8
_SAMPLE_AT = {1, 5, 23, 101, 419, 1733, 7001, 28001}


class StopRun(BaseException):
    pass


class CaseTimeout(BaseException):
    """Raised by the per-case watchdog (SIGALRM) inside the code under test."""


# A call into the repository that has not returned after this many seconds is reported as `<ID>.hang` (every property
# implies that the call returns). The slowest legitimate case of any check takes a few seconds; a module can override
# the value with CASE_TIMEOUT. This is not a performance assertion: it only keeps a non-terminating loop from blocking
# the run for ever.
DEFAULT_CASE_TIMEOUT = int(os.environ.get("VP_CASE_TIMEOUT", "300"))


def _on_alarm(signum, frame):
    raise CaseTimeout()


# sensitivity runs only (tools/automutate.py): path of a flag file; the first shard that finds a violation creates it
# and every shard stops at its next case. Never set by the registered commands.
FAILFAST = os.environ.get("VP_FAILFAST_FLAG")


def _failfast_hit():
    if FAILFAST:
        try:
            Path(FAILFAST).touch()
        except OSError:
            pass


def _quiet():
    if os.environ.get("VP_MEMLIMIT_GB"):
        # sensitivity runs only (tools/automutate.py): a mutant that allocates without bound gets a MemoryError (reported
        # as a crash of the code under test) instead of taking the machine down. Never set by the registered commands.
        import resource
        lim = int(float(os.environ["VP_MEMLIMIT_GB"]) * 2 ** 30)
        resource.setrlimit(resource.RLIMIT_AS, (lim, lim))
    warnings.simplefilter("ignore")
    logging.disable(logging.CRITICAL)
    import numpy as np
    np.seterr(all="ignore")
    if not os.environ.get("VP_KEEP_STDERR"):
        # progress bars of dependencies (mtscomp/tqdm) write to stderr; harness errors are captured as text instead
        dn = os.open(os.devnull, os.O_WRONLY)
        os.dup2(dn, 2)


def _scratch_root():
    base = "/dev/shm" if os.path.isdir("/dev/shm") and os.access("/dev/shm", os.W_OK) else None
    return Path(tempfile.mkdtemp(prefix="vp_", dir=base))


class State:
    def __init__(self, mod, known_keys, excluded=()):
        self.mod = mod
        self.known_keys = known_keys
        self.excluded = set(excluded)
        self.evaluations = 0
        self.nontrivial = set()
        self.n_nontrivial_enum = 0
        self.classes = collections.Counter()
        self.samples = []
        self.sample_nt = []
        self.known_seen = {}
        self.excluded_hits = collections.Counter()
        self.failures = {}
        self.stats = {}
        self.harness_error = None
        self.target_kind = None
        self.last_fail = None
        self.scratch = None
        self.deadline = None
        self.budget_exhausted = False

    def execute(self, case, enumerated=False):
        """Run one case; returns the list of findings that are neither known nor excluded."""
        if self.deadline and time.time() > self.deadline:
            self.budget_exhausted = True
            raise StopRun()
        if FAILFAST and os.path.exists(FAILFAST):
            raise StopRun()
        ctx = Ctx(scratch=self.scratch)
        journal = os.environ.get("VP_JOURNAL")
        if journal:
            # the case in flight, so that the parent can name it if this process is killed by a signal (SIGBUS from a
            # memory map over a file the code under test truncated, SIGSEGV in native code, ...)
            try:
                with open(os.path.join(journal, f"{os.getpid()}.json"), "w") as jf:
                    json.dump({"property": self.mod.ID, "case": case}, jf, default=str)
            except OSError:
                journal = None
        timeout = getattr(self.mod, "CASE_TIMEOUT", DEFAULT_CASE_TIMEOUT)
        if timeout and getattr(self, "hang_seen", False):
            timeout = min(timeout, 20)  # one hang has been reported already: do not wait the full time for each further one
        try:
            if timeout:
                signal.signal(signal.SIGALRM, _on_alarm)
                signal.setitimer(signal.ITIMER_REAL, timeout)
            try:
                self.mod.run_case(case, ctx)
            finally:
                if timeout:
                    signal.setitimer(signal.ITIMER_REAL, 0)
                if journal:
                    try:
                        os.unlink(os.path.join(journal, f"{os.getpid()}.json"))
                    except OSError:
                        pass
        except CaseTimeout:
            self.hang_seen = True
            ctx.fail(f"{self.mod.ID}.hang", f"the case did not finish within {timeout} s (a call into the repository does not "
                     "return; legitimate cases take seconds at most)")
        except (HarnessAbort, StopRun):
            raise
        except BaseException as e:  # noqa - harness bug, or SUT exception not routed through ctx.call
            if isinstance(e, (KeyboardInterrupt, SystemExit)):
                raise
            self.harness_error = {"traceback": traceback.format_exc(), "case": case}
            raise HarnessAbort()
        self.evaluations += 1
        if ctx.nontrivial:
            if enumerated:
                self.n_nontrivial_enum += 1
            else:
                self.nontrivial.add(case_hash(case))
            if len(self.sample_nt) < 2 and self.evaluations > 3:
                self.sample_nt.append({"case": case, "classes": sorted(set(ctx.classes))})
        self.classes.update(set(ctx.classes))
        if self.evaluations in _SAMPLE_AT:
            self.samples.append({"case": case, "classes": sorted(set(ctx.classes))})
        for k, v in ctx.stats.items():
            how = "min" if k.startswith("min_") else "max"
            cur = self.stats.get(k)
            self.stats[k] = v if cur is None else (min(cur, v) if how == "min" else max(cur, v))
        new = []
        for f in ctx.findings:
            key = self._known_key(case, f)
            if key:
                d = self.known_seen.setdefault(key, {"count": 0, "example": {"case": case, **f.to_json()}})
                d["count"] += 1
            elif f.kind in self.excluded:
                self.excluded_hits[f.kind] += 1
            else:
                new.append(f)
        return new

    def _known_key(self, case, f):
        preds = getattr(self.mod, "KNOWN", {})
        for key in self.known_keys:
            p = preds.get(key)
            if p is not None and p(case, f):
                return key
        return None

    def export(self):
        return {
            "evaluations": self.evaluations,
            "nontrivial": sorted(self.nontrivial),
            "n_nontrivial_enum": self.n_nontrivial_enum,
            "classes": dict(self.classes),
            "samples": self.samples + self.sample_nt,
            "known_seen": self.known_seen,
            "excluded_hits": dict(self.excluded_hits),
            "failures": self.failures,
            "stats": self.stats,
            "harness_error": self.harness_error,
            "budget_exhausted": self.budget_exhausted,
        }


def _load(mod_id):
    return importlib.import_module(f"vp.checks.{mod_id.lower()}")


# ------------------------------------------------------------------------------------------------
# workers (run in child processes)

def _hyp_shard(mod_id, tier, seed, shard, n_cases, known_keys, deadline):
    _quiet()
    import hypothesis
    from hypothesis import given, settings, HealthCheck, Phase
    mod = _load(mod_id)
    st = State(mod, known_keys)
    st.deadline = deadline
    st.scratch = _scratch_root()
    shrink = getattr(mod, "SHRINK", {"quick": True, "thorough": True}).get(tier, True) and not FAILFAST
    phases = [Phase.generate] + ([Phase.shrink] if shrink else [])
    strat = mod.strategy(tier)
    try:
        rnd = 0
        while st.evaluations < n_cases and rnd < MAX_KINDS_PER_SHARD:
            remaining = n_cases - st.evaluations
            st.target_kind = None
            st.last_fail = None
            hseed = (seed * 1000003 + shard * 7919 + rnd * 104729) % (2 ** 63)

            @hypothesis.seed(hseed)
            @settings(max_examples=remaining, database=None, deadline=None, derandomize=False,
                      report_multiple_bugs=False, phases=phases, print_blob=False,
                      suppress_health_check=list(HealthCheck))
            @given(strat)
            def test(case):
                new = st.execute(case)
                if st.target_kind is None:
                    if new:
                        st.target_kind = new[0].kind
                        st.last_fail = (case, new[0])
                        raise AssertionError(new[0].kind)
                else:
                    hit = [f for f in new if f.kind == st.target_kind]
                    if hit:
                        st.last_fail = (case, hit[0])
                        raise AssertionError(hit[0].kind)

            try:
                test()
                break  # budget used without a new failure
            except (HarnessAbort, StopRun):
                break
            except BaseException as e:  # noqa
                if st.last_fail is None:
                    # Hypothesis-internal error (e.g. Flaky, Unsatisfiable): harness problem
                    st.harness_error = {"traceback": traceback.format_exc(), "case": None}
                    break
                case, f = st.last_fail
                st.failures[f.kind] = {"case": case, "msg": f.msg, "shard": shard, "hseed": hseed}
                st.excluded.add(f.kind)
                rnd += 1
                if FAILFAST:
                    _failfast_hit()
                    break
    finally:
        shutil.rmtree(st.scratch, ignore_errors=True)
    return st.export()


def _enum_shard(mod_id, tier, desc, known_keys, deadline):
    _quiet()
    mod = _load(mod_id)
    st = State(mod, known_keys)
    st.deadline = deadline
    st.scratch = _scratch_root()
    try:
        for case in mod.enum_cases(desc):
            new = st.execute(case, enumerated=True)
            for f in new:
                if f.kind not in st.failures:
                    st.failures[f.kind] = {"case": case, "msg": f.msg, "shard": "enum"}
                st.excluded.add(f.kind)
            if new and FAILFAST:
                _failfast_hit()
                break
    except (HarnessAbort, StopRun):
        pass
    finally:
        shutil.rmtree(st.scratch, ignore_errors=True)
    return st.export()


def _replay_cases(mod_id, cases, known_keys):
    _quiet()
    mod = _load(mod_id)
    st = State(mod, known_keys)
    st.scratch = _scratch_root()
    try:
        for case in cases:
            new = st.execute(case, enumerated=False)
            for f in new:
                if f.kind not in st.failures:
                    st.failures[f.kind] = {"case": case, "msg": f.msg, "shard": "corpus"}
            if new and FAILFAST:
                _failfast_hit()
                break
    except (HarnessAbort, StopRun):
        pass
    finally:
        shutil.rmtree(st.scratch, ignore_errors=True)
    return st.export()


# ------------------------------------------------------------------------------------------------

def _merge(parts):
    out = {"evaluations": 0, "nontrivial": set(), "n_nontrivial_enum": 0, "classes": collections.Counter(),
           "samples": [], "known_seen": {}, "excluded_hits": collections.Counter(), "failures": {}, "stats": {},
           "harness_error": None, "budget_exhausted": False}
    for p in parts:
        out["evaluations"] += p["evaluations"]
        out["nontrivial"].update(p["nontrivial"])
        out["n_nontrivial_enum"] += p["n_nontrivial_enum"]
        out["classes"].update(p["classes"])
        out["samples"].extend(p["samples"])
        for k, v in p["known_seen"].items():
            d = out["known_seen"].setdefault(k, {"count": 0, "example": v["example"]})
            d["count"] += v["count"]
        out["excluded_hits"].update(p["excluded_hits"])
        for k, v in p["failures"].items():
            cur = out["failures"].get(k)
            if cur is None or len(json.dumps(v["case"], default=str)) < len(json.dumps(cur["case"], default=str)):
                out["failures"][k] = v
        for k, v in p["stats"].items():
            cur = out["stats"].get(k)
            out["stats"][k] = v if cur is None else (min(cur, v) if k.startswith("min_") else max(cur, v))
        out["harness_error"] = out["harness_error"] or p["harness_error"]
        out["budget_exhausted"] = out["budget_exhausted"] or p["budget_exhausted"]
    return out


def _corpus_cases(mod_id):
    d = VERIF / "corpus" / mod_id
    cases = []
    if d.is_dir():
        for f in sorted(d.glob("*.json")):
            obj = json.loads(f.read_text())
            cases.append(obj["case"] if isinstance(obj, dict) and "case" in obj else obj)
    return cases


def _confirm_killed(mod_id, journal_dir):
    """A worker process died. Every case that was in flight is replayed alone in a process of its own, twice; a case that
    kills its process with the same signal both times is a finding (`<ID>.process_killed_<SIGNAL>`): no property allows
    the interpreter to be taken down. Anything else (a kill that does not reproduce: out-of-memory killer, operator)
    stays a harness error."""
    out = {}
    for jf in sorted(Path(journal_dir).glob("*.json")):
        try:
            obj = json.loads(jf.read_text())
        except Exception:  # noqa - half-written journal
            continue
        sigs = []
        for _ in range(2):
            env = dict(os.environ)
            env.pop("VP_JOURNAL", None)
            env.pop("VP_FAILFAST_FLAG", None)
            try:
                r = subprocess.run([sys.executable, "-m", "vp.driver", mod_id, "--replay", str(jf)], env=env, cwd=str(VERIF),
                                   capture_output=True, timeout=DEFAULT_CASE_TIMEOUT + 60)
                rc = r.returncode
            except subprocess.TimeoutExpired:
                rc = 0
            sigs.append(-rc if rc < 0 else (rc - 128 if rc > 128 else 0))
        if sigs[0] and sigs[0] == sigs[1]:
            try:
                name = signal.Signals(sigs[0]).name
            except ValueError:
                name = f"SIG{sigs[0]}"
            out[f"{mod_id}.process_killed_{name}"] = {
                "case": obj["case"], "shard": "journal",
                "msg": f"the case kills the Python process with {name} (reproduced twice in a process of its own)"}
    return out


def main(argv=None):
    ap = argparse.ArgumentParser()
    ap.add_argument("id")
    ap.add_argument("--tier", default=os.environ.get("VERIF_TIER") or "quick", choices=["quick", "thorough"])
    ap.add_argument("--replay")
    ap.add_argument("--cases", type=int)
    ap.add_argument("--shards", type=int, default=int(os.environ.get("VP_SHARDS", "16")))
    ap.add_argument("--no-enum", action="store_true")
    args = ap.parse_args(argv)
    mod_id = args.id.upper()
    try:
        seed = int(os.environ.get("VERIF_SEED", "1") or 1)
    except ValueError:
        seed = 1
    t0 = time.time()
    try:
        mod = _load(mod_id)
    except Exception:
        traceback.print_exc()
        print(f"HARNESS-ERROR property={mod_id} cannot import check module")
        return 2
    known = load_known(mod_id)
    known_keys = sorted(known)

    if args.replay:
        obj = json.loads(Path(args.replay).read_text())
        case = obj["case"] if isinstance(obj, dict) and "case" in obj else obj
        res = _replay_cases(mod_id, [case], known_keys)
        if res["harness_error"]:
            print(res["harness_error"]["traceback"])
            return 2
        for k, v in res["known_seen"].items():
            print(f"KNOWN-FINDING: property={mod_id} key={k} {known[k]}")
        for kind, v in res["failures"].items():
            print(f"  finding kind={kind} msg={v['msg']}")
        if res["failures"]:
            print(f"VIOLATION property={mod_id} replay={args.replay}")
            return 1
        print(f"OK property={mod_id} replay={args.replay} (no violation)")
        return 0

    tier = args.tier
    budget = args.cases if args.cases is not None else mod.BUDGET[tier]
    wall_cap = getattr(mod, "WALL_CAP", {"quick": 600, "thorough": 5400})[tier]
    deadline = t0 + wall_cap
    nshards = max(1, min(args.shards, budget)) if budget else 0
    per = [budget // nshards + (1 if i < budget % nshards else 0) for i in range(nshards)] if nshards else []

    parts = []
    exhaustive = False
    stuck = False
    ctxmp = mp.get_context("fork")
    journal_dir = tempfile.mkdtemp(prefix="vp_journal_", dir="/dev/shm" if os.path.isdir("/dev/shm") else None)
    os.environ["VP_JOURNAL"] = journal_dir
    with cf.ProcessPoolExecutor(max_workers=max(1, args.shards), mp_context=ctxmp) as ex:
        futs = []
        corpus = _corpus_cases(mod_id)
        n_corpus = len(corpus)
        if corpus:
            futs.append(ex.submit(_replay_cases, mod_id, corpus, known_keys))
        if hasattr(mod, "enum_shards") and not args.no_enum:
            descs = list(mod.enum_shards(tier))
            exhaustive = bool(descs)
            for d in descs:
                futs.append(ex.submit(_enum_shard, mod_id, tier, d, known_keys, deadline))
        for i, n in enumerate(per):
            if n > 0:
                futs.append(ex.submit(_hyp_shard, mod_id, tier, seed, i, n, known_keys, deadline))
        for f in futs:
            try:
                # a shard that is stuck inside native code (the per-case watchdog cannot fire there) must not block the
                # run for ever: give up two minutes after the wall-clock cap and report a harness error
                parts.append(f.result(timeout=max(5.0, deadline + 120 - time.time())))
            except cf.TimeoutError:
                stuck = True
                parts.append({"evaluations": 0, "nontrivial": [], "n_nontrivial_enum": 0, "classes": {}, "samples": [],
                              "known_seen": {}, "excluded_hits": {}, "failures": {}, "stats": {},
                              "harness_error": {"traceback": "a shard process did not return within the wall-clock cap + 120 s",
                                                "case": None},
                              "budget_exhausted": True})
            except Exception:
                parts.append({"evaluations": 0, "nontrivial": [], "n_nontrivial_enum": 0, "classes": {}, "samples": [],
                              "known_seen": {}, "excluded_hits": {}, "failures": {}, "stats": {},
                              "harness_error": {"traceback": traceback.format_exc(), "case": None},
                              "budget_exhausted": False})
        if stuck:
            for pr in list(getattr(ex, "_processes", {}).values()):
                try:
                    pr.kill()
                except Exception:  # noqa
                    pass
    m = _merge(parts)
    os.environ.pop("VP_JOURNAL", None)
    if m["harness_error"] and "BrokenProcessPool" in (m["harness_error"].get("traceback") or ""):
        killed = _confirm_killed(mod_id, journal_dir)
        if killed:
            m["failures"].update(killed)
            m["harness_error"] = None
    shutil.rmtree(journal_dir, ignore_errors=True)
    # ---- second engine (thorough tier, modules that ask for it): coverage-guided fuzzing of the same property
    second = None
    ath = getattr(mod, "ATHERIS", None)
    if ath and tier == "thorough" and not m["harness_error"] and not FAILFAST:
        from . import fuzz_atheris
        outroot_ = Path(os.environ["VP_OUT"]) if os.environ.get("VP_OUT") else VERIF
        adir = Path(tempfile.mkdtemp(prefix="vp_ath_out_", dir="/dev/shm" if os.path.isdir("/dev/shm") else None))
        try:
            second = fuzz_atheris.run(mod_id, adir, ath.get("runs", 200000), ath.get("seconds", 240), seed)
            if second.get("finding"):
                src = Path(second["finding"]["replay"])
                obj = json.loads(src.read_text())
                kind = obj["kind"]
                if kind not in m["failures"]:
                    m["failures"][kind] = {"case": obj["case"], "msg": obj["msg"] + " [found by the atheris engine]", "shard": "atheris"}
        finally:
            shutil.rmtree(adir, ignore_errors=True)
    wall = time.time() - t0

    # ---- replays for violations
    viol_lines = []
    outroot = Path(os.environ["VP_OUT"]) if os.environ.get("VP_OUT") else VERIF
    rdir = outroot / "replays" / mod_id
    for kind, v in sorted(m["failures"].items()):
        rdir.mkdir(parents=True, exist_ok=True)
        name = re.sub(r"[^A-Za-z0-9_.@-]+", "_", kind)[:80] + "-" + case_hash(v["case"]) + ".json"
        path = rdir / name
        path.write_text(json.dumps({"property": mod_id, "kind": kind, "msg": v["msg"], "case": v["case"],
                                    "seed": seed, "tier": tier}, indent=1, default=str))
        viol_lines.append((kind, v["msg"], path))

    # ---- evidence
    samples = m["samples"]
    if len(samples) > N_SAMPLES:
        step = len(samples) / N_SAMPLES
        samples = [samples[int(i * step)] for i in range(N_SAMPLES)]
    distinct_nt = len(m["nontrivial"]) + m["n_nontrivial_enum"]
    ev = {
        "property_id": mod_id,
        "tier": tier,
        "seed": seed,
        "level": mod.LEVEL,
        "coverage": {
            "evaluations": m["evaluations"],
            "distinct_nontrivial": distinct_nt,
            "rule": mod.RULE,
            "samples": samples,
            "classes": dict(sorted(m["classes"].items())),
            "exhaustive": bool(exhaustive and getattr(mod, "EXHAUSTIVE_NOTE", None) is not None),
            "exhaustive_note": getattr(mod, "EXHAUSTIVE_NOTE", None),
            "corpus_cases_replayed": n_corpus,
            "margins": m["stats"],
            "excluded_by_kind": dict(m["excluded_hits"]),
            "known_findings_seen": {k: v["count"] for k, v in m["known_seen"].items()},
            "known_findings_examples": {k: v["example"] for k, v in m["known_seen"].items()},
            "budget_exhausted": m["budget_exhausted"],
            "violation_kinds": sorted(m["failures"]),
            "second_engine": second,
        },
        "assumptions": list(getattr(mod, "ASSUMPTIONS", [])),
        "wall_s": round(wall, 2),
        "violations": len(m["failures"]),
    }
    (outroot / "evidence").mkdir(exist_ok=True, parents=True)
    (outroot / "evidence" / f"{mod_id}.json").write_text(json.dumps(ev, indent=1, default=str))

    # ---- report
    print(f"property={mod_id} tier={tier} seed={seed} evaluations={m['evaluations']} "
          f"distinct_nontrivial={distinct_nt} wall_s={wall:.1f}"
          + (" budget_exhausted" if m["budget_exhausted"] else ""))
    if os.environ.get("VP_VERBOSE"):
        for k, v in sorted(m["classes"].items()):
            print(f"  class {k}: {v}")
        for k, v in sorted(m["stats"].items()):
            print(f"  margin {k}: {v}")
    for k, v in sorted(m["known_seen"].items()):
        print(f"KNOWN-FINDING: property={mod_id} key={k} {known[k]} [{v['count']} generated cases]")
    if m["harness_error"]:
        print("HARNESS-ERROR property=%s" % mod_id)
        print(m["harness_error"]["traceback"])
        if m["harness_error"].get("case") is not None:
            print("case:", json.dumps(m["harness_error"]["case"], default=str)[:3000])
        return 2
    for kind, msg, path in viol_lines:
        print(f"  finding kind={kind} msg={msg[:300]}")
        print(f"VIOLATION property={mod_id} replay={path}")
    if viol_lines:
        return 1
    if m["evaluations"] == 0:
        print("HARNESS-ERROR no case was executed")
        return 2
    return 0


if __name__ == "__main__":
    sys.exit(main())
