"""FFT-free reference models for C07 (Fourier time shift).

Nothing in here calls an FFT or the repository: delays are evaluated from closed forms.

* `split_shift(a, b, ...)`: exact integer + fractional decomposition of a sum of doubles.
* `delayed_impulse(n, k, f)`: unit impulse delayed by k+f samples under band-limited periodic interpolation
  (periodic sinc / Dirichlet kernel), evaluated in extended precision so that the reference is good to ~1e-17.
* `sines(n, freq, amp, phase, k, f)`: sum of integer-cycle sinusoids evaluated at t-(k+f); the integer part of the
  argument is reduced modulo n in exact integer arithmetic.
* `spike(t, comps)`: smooth spike shapes (sums of Gaussian derivatives) and their largest slope.
"""
import numpy as np

LD = np.longdouble
PI_LD = np.arctan(LD(1)) * 4
HAS_EXTENDED = np.finfo(LD).eps < 1e-18


def split_shift(*parts):
    """(k, f): integer k and extended-precision f with k + f == sum(parts) exactly (each part is a double, |part|
    < 2**40) and |f| <= 0.5. f == 0 iff the sum is an integer."""
    k = 0
    f = LD(0)
    for p in parts:
        p = float(p)
        kp = int(np.round(p))
        k += kp
        f = f + (LD(p) - LD(kp))  # p - round(p) is exact
    r = int(np.round(float(f)))
    if r:
        k += r
        f = f - LD(r)
    return k, f


def delayed_impulse(n, k, f, nyquist_free):
    """Length-n float64 vector e with e[t] = value at sample t of the unit impulse at 0 delayed by k+f samples.
    nyquist_free=False (only meaningful for odd n, or for f == 0): all n bins are delayed.
    nyquist_free=True (even n): the input is delta - (-1)**t / n (its Nyquist bin is empty) and the n-1 remaining
    bins are delayed. For f == 0 the result is the literal circular roll of the input."""
    t = np.arange(n)
    if nyquist_free:
        assert n % 2 == 0
    if f == 0:
        x0 = np.zeros(n)
        x0[0] = 1.0
        if nyquist_free:
            x0 = x0 - (1.0 - 2.0 * (t % 2)) / n
        return np.roll(x0, k)
    m = n - 1 if nyquist_free else n
    assert m % 2 == 1, "a fractional delay of a signal with energy at Nyquist is not defined"
    j = ((t - k + n // 2) % n) - n // 2  # integer distance to the delayed impulse, in [-n/2, n/2)
    x = j.astype(LD) - f
    den = n * np.sin(PI_LD * x / n)
    num = np.sin(PI_LD * x * m / n)
    small = np.abs(den) < 1e-12
    den[small] = 1
    d = num / den
    d[small] = LD(m) / n
    return d.astype(np.float64)


def circulant_columns(e_list, which, n):
    """E[t, u] = e_list[which[u]][(t - u) mod n]: column u is the (circulant) input column u delayed by its own
    shift."""
    t = np.arange(n)
    idx = (t[:, None] - t[None, :]) % n
    if len(e_list) == 1:
        return e_list[0][idx]
    tab = np.stack(e_list)  # (nvalues, n)
    return tab[np.asarray(which)[None, :], idx]


def sines(n, freq, amp, phase, k, f):
    """sum_i amp_i cos(2 pi freq_i (t - k - f) / n + phase_i) for t = 0..n-1 (freq_i integers below n/2)."""
    t = np.arange(n, dtype=np.int64)
    out = np.zeros(n)
    ff = float(f)
    for fr, a, p in zip(freq, amp, phase):
        fr = int(fr)
        red = (fr * (t - k)) % n  # exact
        out += a * np.cos(2 * np.pi * (red / n) - 2 * np.pi * fr * ff / n + p)
    return out


# ---- smooth spikes ---------------------------------------------------------------------------------------------

def _he(p, u):
    if p == 0:
        return np.ones_like(u)
    if p == 1:
        return u
    if p == 2:
        return u * u - 1
    if p == 3:
        return u ** 3 - 3 * u
    raise ValueError(p)


_U = np.linspace(-8, 8, 32001)
_NORM = {p: float(np.max(np.abs(_he(p, _U) * np.exp(-_U * _U / 2)))) for p in range(4)}


def gauss_deriv(t, c, sig, p):
    """p-th Gaussian derivative shape (probabilists' Hermite polynomial times Gaussian), peak magnitude 1."""
    u = (np.asarray(t, dtype=float) - c) / sig
    return (-1) ** p * _he(p, u) * np.exp(-u * u / 2) / _NORM[p]


def spike(t, c, comps):
    """comps: list of [p, sigma, offset, amplitude]."""
    out = np.zeros(np.shape(t))
    for p, sig, off, a in comps:
        out = out + a * gauss_deriv(t, c + off, sig, int(p))
    return out


def spike_halfwidth(comps):
    return max(abs(off) + (5 + int(p)) * sig for p, sig, off, a in comps)


def spike_max_slope(comps):
    hw = spike_halfwidth(comps)
    tt = np.arange(-hw, hw, 0.02)
    return float(np.max(np.abs(np.diff(spike(tt, 0.0, comps)))) / 0.02)


def is_prime(n):
    if n < 2:
        return False
    i = 2
    while i * i <= n:
        if n % i == 0:
            return False
        i += 1
    return True
