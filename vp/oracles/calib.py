"""Independent calibration / geometry oracle, written from the SpikeGLX documentation and the docstrings of the
repository (not from spikeglx.py): volts-per-bit, grid coordinates, ADC tables, sort order. All inputs come from
the generator's spec (vp.gens.meta), never from the text parser under test."""
import numpy as np

from vp.gens import meta as gm


def version_of(spec):
    return spec["gen"] if spec["gen"] != "nidq" else None


def s2v(spec, stream=None):
    """Volts per bit for every on-disk channel of the given stream ('ap'/'lf'/'nidq')."""
    gen = spec["gen"]
    if gen == "nidq":
        maxint = spec.get("maxint") or 32768
        i2v = spec["range"] / maxint
        return np.r_[np.full(spec["mn"], i2v / spec["mn_gain"]), np.full(spec["ma"], i2v / spec["ma_gain"]),
                     np.full(spec["xa"], i2v), np.ones(spec["dw"])]
    stream = stream or spec.get("stream", "ap")
    n, nsync = spec["n"], spec.get("nsync", 1)
    if gen in ("NP2.1", "NP2.4"):
        i2v = spec["range"] / spec["maxint"]
        g = np.full(n, 80.0)
    else:
        i2v = spec["range"] / (spec.get("maxint") or 512)
        k0 = spec.get("first_chan", 0)
        gains = gm.gains_of(spec)[k0:k0 + n]  # the gain of a saved channel is the imro entry of its ORIGINAL channel number
        g = np.array([a if stream == "ap" else b for a, b in gains], dtype=float)
    return np.r_[i2v / g, np.ones(nsync)]


def range_volts(spec):
    if spec["gen"] == "nidq":
        maxint = spec.get("maxint") or 32768
    elif spec["gen"] in ("NP2.1", "NP2.4"):
        maxint = spec["maxint"]
    else:
        maxint = spec.get("maxint") or 512
    return s2v(spec) * maxint


def major(gen):
    return {"3A": 1, "3B1": 1, "3B2": 1, "NP2.1": 2, "NP2.4": 2.4, "NPultra": "NPultra"}[gen]


def site_xy_rc(gen, shank, col, row):
    """(x, y, row, col) of a site in the repository's documented convention (x from the left edge of the shank in
    um, y from the tip with the 20 um tip offset; col = column index on the grid of that generation)."""
    if gm.is_np1(gen):
        x = {(0, 0): 43, (1, 0): 11, (0, 1): 59, (1, 1): 27}[(col, row % 2)]
        return x, 20 * row + 20, row, (x - 11) // 16
    if gen in ("NP2.1", "NP2.4"):
        return 27 + 32 * col, 15 * row + 20, row, col
    if gen == "NPultra":
        return 6 * col, 6 * row, row, col
    raise ValueError(gen)


def adc_table(gen, ch):
    """(adc group, sample shift as a fraction of the sampling period) of original channel number ch."""
    ch = np.asarray(ch)
    if gen in ("NP2.1", "NP2.4"):
        return 2 * (ch // 32) + ch % 2, ((ch % 32) // 2) / 16
    return 2 * (ch // 24) + ch % 2, ((ch % 24) // 2) / 13


def geometry(spec, sort=True, shank=None):
    """Expected geometry dict and the permutation `order` (column i of sorted data = on-disk channel order[i]).
    shank: restrict to that shank (split child); `ind` is then the position inside the child file."""
    gen = spec["gen"]
    sites = gm.sites_of(spec)
    n = len(sites)
    arr = np.array([site_xy_rc(gen, *s) for s in sites], dtype=float).reshape(n, 4)
    shk = np.array([s[0] for s in sites], dtype=float)
    adc, shift = adc_table(gen, spec.get("first_chan", 0) + np.arange(n))  # original channel numbers
    th = {"x": arr[:, 0], "y": arr[:, 1], "row": arr[:, 2], "col": arr[:, 3], "shank": shk,
          "adc": adc.astype(float), "sample_shift": shift.astype(float)}
    if shank is not None:
        sel = np.flatnonzero(shk == shank)
        th = {k: v[sel] for k, v in th.items()}
    m = th["x"].size
    th["ind"] = np.arange(m)
    if sort:
        order = np.array(sorted(range(m), key=lambda i: (th["shank"][i], th["row"][i], -th["col"][i])), dtype=int)
    else:
        order = np.arange(m)
    th = {k: v[order] for k, v in th.items()}
    return th, order
