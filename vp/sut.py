"""The only place that imports the repository. VP_REPO_SRC (default /repo/src, i.e. the current working tree) must be
on sys.path (the ./check script does it); modules are imported lazily so that a check touching only ibldsp.utils does
not depend on e.g. pandas importing."""
import importlib
import sys

from .core import REPO_SRC

if str(REPO_SRC) not in sys.path:
    sys.path.insert(0, str(REPO_SRC))


def _imp(name):
    m = importlib.import_module(name)
    f = getattr(m, "__file__", "") or ""
    assert f.startswith(str(REPO_SRC)), f"{name} imported from {f}, expected under {REPO_SRC}"
    return m


def utils():
    return _imp("ibldsp.utils")


def fourier():
    return _imp("ibldsp.fourier")


def voltage():
    return _imp("ibldsp.voltage")


def waveforms():
    return _imp("ibldsp.waveforms")


def waveform_extraction():
    return _imp("ibldsp.waveform_extraction")


def smooth():
    return _imp("ibldsp.smooth")


def cadzow():
    return _imp("ibldsp.cadzow")


def spiketrains():
    return _imp("ibldsp.spiketrains")


def spikeglx():
    return _imp("spikeglx")


def neuropixel():
    return _imp("neuropixel")


def model():
    return _imp("neurowaveforms.model")
